"""Per-property metadata used by checks/check.py for evidence and MANIFEST (what is proved, what is only assumed)."""

TRUSTED_BASE = [
    'pyvc symbolic executor and VC generator (home-built, /verif/pyvc) - Python semantics as encoded in DESIGN.md section 3',
    'z3 5.1 (python API) and cvc5 1.0.3 as SMT back ends',
    'sidecar contracts of callees are assumed at call sites (modular verification); callee bodies are checked by their own unit where one exists',
]
EXTRACTION_DROPS = ('the verified text is /repo/src/pjplan/*.py re-parsed on every run; dropped: docstrings, type annotations, comments, '
                    'the text of exception messages and f-strings (embedded expressions are still evaluated for their own exceptions), print()')
ASSUMPTIONS = [
    'A-real: float is encoded as mathematical Real',
    'A-time: datetime is a real number of seconds on one naive time line; datetime(d.year,d.month,d.day)=midnight(d); no OverflowError, no microsecond rounding of timedelta(hours=float)',
    'A-stack: unbounded recursion depth (RecursionError on deep acyclic inputs is not modelled)',
    'object equality / `in` on Task, WBS, resources, calendars is identity (no class defines __eq__)',
    'day arithmetic: dayidx / midnight are uninterpreted functions characterised by the floor axioms core.TIME_AXIOMS (86400*dayidx(t) <= t < 86400*(dayidx(t)+1), midnight(t) = 86400*dayidx(t))',
    'theory axioms assumed as definitions and not validated against CPython: ledger recursion equations (sched_theory.LEDGER_AX), list-sum extensionality (passes.SUM_AX), abstract text theory (text.py), '
    'csv / float / int / strftime inverse pairs (csvio.LIB_AX); validated on small exhaustive domains in the thorough tier: list theory, Desc/Acyc/rootof/TCp axioms (selftest/validate_axioms.py), proved in Lean: lemmas/Graph.lean',
    'every `assume` in a contract is either part of the assumed contract of a callee / library function or a definitional reveal; the count per contracts module is printed in the evidence (assume_scan)',
    'termination measures (graph_theory.MEASURE_AX): for every acyclic parent map / dependency relation there is a height, a depth and a link rank that decrease along the edges - true of FINITE graphs (Lean lemmas K1 / wfE); heaps are finite',
    'generators are executed eagerly (yield appends to a ghost output list); laziness is not modelled - every consumer in the repository exhausts the generator at once and nothing is written in between',
    'spec functions introduced by their unfolding axioms (definitions, conservative on well-founded arguments): dfs / dfs_upto guarded by the forest flag (closure.DFS_AX), take (prefix of a list), every_filter_holds, every_line_has_visible_width',
    'allocation: the part of the heap that is not allocated yet is modelled as blank task objects that satisfy the invariant trivially and that nobody refers to (Task.__init__ unit); a fresh list object differs from every list object a task holds',
    'defined predicates (graph_theory.INJ_AX, UNIQ_AX, CLOSED_AX): inj / disj (different tasks hold different list objects), uniq (ids unique within every tree) and closedL (a set of tasks closed under children) are introduced by the two directions of their definitions, '
    'the <= direction skolemised, the => direction through a witness function (left inverse / side marker / task-with-id) that exists exactly when the predicate holds - a conservative extension; every instance over small universes is checked in selftest/validate_axioms.py; closedL\'s '
    'consequence CL1 (descendants of members are members) is proved in Lean',
    'guarded hypotheses (Unit.focus): a unit may state a group of hypotheses as `switch -> clause` and run the queries that do not need them with the switch false; this only removes hypotheses from a query (sound), the switch occurs nowhere else',
    'the solver budget is z3\'s deterministic resource limit; cvc5 (only consulted for z3\'s unknowns) runs under a wall-clock limit',
]


def P(level, explanation, bounded_functions=(), trusted=(), assumptions=(), design_ref=''):
    return {'level': level, 'explanation': explanation, 'bounded_functions': list(bounded_functions), 'trusted': list(trusted),
            'assumptions': list(assumptions), 'design_ref': design_ref}


PROPS = {
    'C17': P('proof',
             'contract-based deductive verification of EVERY function the property depends on, symbolically executed from the real source and discharged by z3 for all inputs (loops by invariants, no bound): '
             'the five combinators (value = the operator folded over the operand values; operands without information skipped; negative difference = none; | = first positive operand) and their constructors; '
             'the operator methods __add__/__sub__/__mul__/__truediv__/__or__ and __prepare_calendar (result = the right combinator over [receiver, operand], a number acting as a constant calendar, the number 0 as divisor '
             'and negative numbers rejected with RuntimeError); FixedCalendar / DirectCalendar / WeeklyCalendar getters AND constructors incl. set_units and the two range checks (configured value inside the validity, none / zero '
             'outside; rejected exactly for weekdays outside 0-6, negative units, start after end or a malformed argument combination; the constructors establish the class invariants the getters assume); FuncCalendar; '
             'Resource.get_available_units (0, never None); IResource.get_nearest_availability_date (earliest whole-day offset with capacity in either direction, RuntimeError exactly when none exists within the horizon, termination). '
             'The sentence about calendar *expressions* follows by structural induction over the expression from these per-class contracts through the interface function val(calendar, date). '
             'The bounded native stand-in is still run (random expressions, constructor lists, repeated queries) as replay / counterexample search, but no clause of C17 rests on it.',
             bounded_functions=[],
             trusted=['interface contract: val(calendar, date) denotes what calendar.get_available_units(date) returns (L)', 'dict contracts (k in d, d[k], d[k] = v, d | e, dict comprehension, keys()) for the dict-valued calendar fields',
                      'list contract (iteration by index, literal lists)', 'not in scope of the property and not under contract: __repr__ helpers, WeeklyCalendar.clone / get_week_day_hours, DirectCalendar.dates, IWorkCalendar.apply, IResource.reserve'],
             assumptions=['A-div: WorkCalendarDiv is specified only for dates on which no divisor operand has the value 0 (Python raises ZeroDivisionError there)',
                          'DirectCalendar: the keys handed to the constructor / set_units lie on pairwise different days (with two keys on one day the later one wins - not specified)',
                          'WeeklyCalendar.__init__: units_per_day is None, a number, or a dict with integer keys and numeric values'],
             design_ref='8/C17'),
}
_SCHED_TRUST = ['interface contract (L): IResource.get_available_units is a pure, deterministic, day-granular function cap(resource, day) - proved zero-filled / never None for Resource over every calendar class (contracts/calendar.py)',
                'interface contract (L): IResource.reserve (a hook, `pass` in the repository) does not touch the ledger or the tasks',
                'induction schema for snoc-lists (ledger) and the function-by-function / recursion-by-contract meta-argument',
                'structure facts assumed at the entry of the passes (established by calc and by the graph invariants, not re-proved here): links and children non-null, '
                'rank decreasing along every waits-for edge (exists iff _check_loops accepts; K1), ids unique in the WBS (C05), Task.all_parents lists parent first then its ancestors, summary fields cleared by __prepare_tasks']
_SCHED_B = ['WBS.clone (used by calc by assumed contract: a fresh WBS; with the passed validations and the graph invariants it yields the structure facts of the passes, for the closed world of the copy\'s tasks) - bounded stand-in (C10)',
            '_check_loops, _check_loops_from_task: that a normal return means "the waits-for graph (own links, links of ancestors, children) has no cycle", and termination of the walk - bounded stand-in only '
            '(proved: the walk only reads the graph and ends normally or with RuntimeError, contracts/loops.py)',
            'ResourceUsageReport.rows(filter) - bounded stand-in only']
_SCHED_EXPL = ('contract-based deductive verification of the functions the property lives in: the four scheduling kernels (fill loops and availability searches of both schedulers), '
               '_ResourceUsage.reserve/reserved and ResourceUsageReport.reserved (sum-comprehensions proved equal to the ledger specification functions by induction), and the two recursive passes '
               '__forward_pass/__backward_pass checked against their own contracts at every call site (recursion = induction, termination by rank). All loops are cut by invariants - no bound on WBS size, '
               'calendar, dates or amounts; capacity is an uninterpreted function, so the proofs hold for every calendar. ForwardScheduler.calc and BackwardScheduler.calc are checked too: the base case (empty ledger, nothing scheduled, summaries cleared by the proved __prepare_tasks) establishes the pass pre-condition, '
               'the loop over the roots keeps it, and on return the ledger invariant (C03), start <= end / complete fields of every scheduled task (C07), no work for unscheduled tasks (C04), every root scheduled (C14) and the dependency clause for EVERY scheduled task - forward: a leaf without user-fixed dates starts on or after the day its own and its inherited prerequisites end and not before the project start (C02); '
               'backward: it ends before the project end and before its own and inherited successors start (C09) - hold (both carried as global invariants of the calculated set through the recursion). '
               'Level `other`, not `proof`: clone and the cycle check are only covered by the bounded native stand-in; the structure facts listed under trusted are assumed at the clone call (closed world: links inside the WBS). ')
PROPS.update({
    'C02': P('other', _SCHED_EXPL + 'C02 clauses proved: a scheduler-chosen start is on/after the day of the end of every own and inherited prerequisite (inherited = predecessors of every ancestor, final because calculated), '
             'of the project start, min_start and the clock; no row of the task before its start day nor before today; a milestone sits exactly at the latest prerequisite end or the project start.',
             _SCHED_B, _SCHED_TRUST, design_ref='8/C02'),
    'C03': P('other', _SCHED_EXPL + 'C03 clauses proved: ledger invariant (positive rows on days with capacity, day total <= capacity with balancing on, per-task total <= capacity with balancing off) preserved by every kernel and pass on '
             'both exits; reserve appends exactly one day-normalised row; reserved()/report totals equal the sum over the rows.', _SCHED_B, _SCHED_TRUST, design_ref='8/C03'),
    'C04': P('other', _SCHED_EXPL + 'C04 clauses proved: work(ledger, task) grows by exactly max(estimate-spent,0) (defaults filled) for a leaf that is neither milestone nor completed, by 0 otherwise; rows only from the start day / '
             'before the end day; end within 24h after the last reserved midnight (forward), start within the first reserved day (backward); user-fixed dates returned unchanged.', _SCHED_B, _SCHED_TRUST, design_ref='8/C04'),
    'C06': P('other', _SCHED_EXPL + 'C06 clauses proved at pass level: frame (tasks already calculated, tasks of higher rank and tasks left uncalculated keep all fields; searches do not touch the ledger) and every task handled gets start/end/estimate/spent. '
             'Purity w.r.t. the input WBS, structural equality of the copy, repeatability and clock independence are decided by the bounded stand-in only.', _SCHED_B + ['WBS.clone'], _SCHED_TRUST, design_ref='8/C06'),
    'C07': P('other', _SCHED_EXPL + 'C07 clauses proved: start <= end for every task without user-fixed dates in its subtree (leaf, milestone, summary; both schedulers); summary start = earliest child start, end = latest child end, '
             'estimate/spent = sums over the children; __prepare_tasks discards the user values on summaries; WBS.start / WBS.end = earliest start / latest end over the root tasks.', _SCHED_B, _SCHED_TRUST,
             ['tasks with user-fixed dates in their subtree are excluded from the start<=end clause (known findings A-19, user-fixed-end)'], design_ref='8/C07'),
    'C08': P('other', _SCHED_EXPL + 'C08 clauses proved at kernel level: the search returns the first day on/after the release day with free capacity, every skipped day is fully booked, start = midnight + 24h*share booked before; '
             'the fill loop leaves every day before the last work day full and end = midnight(last) + 24h*share booked up to the task. WBS order among independent tasks and independence with balancing off: bounded stand-in.',
             _SCHED_B, _SCHED_TRUST, design_ref='8/C08'),
    'C09': P('other', _SCHED_EXPL + 'C09 clauses proved: global invariant of the backward pass - every calculated task without user-fixed dates ends before the project end and before the start of every successor of itself and of its ancestors; '
             'kernels: latest day with free capacity, skipped days full, end/start encodings from the end of the day, days between first and last work day full.', _SCHED_B, _SCHED_TRUST, design_ref='8/C09'),
    'C14': P('other', _SCHED_EXPL + 'C14 clauses proved: every safety obligation of the kernels and passes (no None arithmetic/attribute, no division by zero, no max/min of an empty list, no negative estimate, no undeclared exception class), '
             'termination measures of all four bounded searches and of the recursion (rank). That calc answers RuntimeError for unschedulable inputs (cycle through the hierarchy, outside predecessor without dates, fixed end in the future) '
             'is proved for two of the diagnoses (_validate_graph_isolation: outside predecessor without dates; __check_no_end_dates_in_future: fixed end in the future - each raises exactly in that case); the cycle pre-check (_check_loops / _check_loops_from_task, two id sets shared by reference through the recursion) is proved to read the graph only and to end normally or with RuntimeError - '
             'never KeyError out of visited.remove, never an attribute of None: on every normal return of the recursive walk the visited set is exactly what it was; that it DETECTS the cycle through the hierarchy is decided by the bounded stand-in only.', _SCHED_B, _SCHED_TRUST + ['A-stack'], design_ref='8/C14'),
})
_GRAPH_TRUST = ['assumed contract of the built-in list (append/remove/in/index/clear; abstract list theory T1, validated against CPython lists in the thorough tier)',
                'graph lemma axioms D1-D5, G1 (transcriptions of lemmas/Graph.lean, proved in Lean 4 + Mathlib; transcription trusted, validated on all relations over <= 4 nodes)',
                'history induction (meta-argument): every public mutator preserves Inv on both exits, constructors establish it; closed by the encapsulation scan']
_GRAPH_B = ['WBS.__init__ with initial tasks, operators with a right operand that is neither a list nor a single task (set, generator, task-list view) - bounded stand-in only (random histories of public calls)',
            'Task.__init__ does not carry the id clause U1 (a refusal out of the attach loop of the children setter is excluded only for heaps with unique ids) - constructor with children: C15 / C05 by the bounded stand-in',
            'assumed by contract: _to_list (type dispatch of the setters\' argument), the correspondence between the opaque id-clash predicate used in the mutator units and the proved post-condition of _has_id_intersection (same sentence, two formulations), '
            'the read-only list view _ImmutableTaskList (delegates in / iteration / len to the wrapped list). The closure helpers are no longer assumed: Task.all_children / __get_all_children / its generator, '
            'all_parents, all_predecessors / all_successors with _unique_tasks, _check_no_links_to_ancestors, the getters parent / id / wbs and Task._attach / _detach / __set_children are proved in their own units; '
            'their pre-conditions are obliged at every call site in the mutator units']
_GRAPH_EXPL = ('contract-based deductive verification of the core mutators: Task.parent.setter (incl. its re-entrant call through roots.append, checked against its own contract) and both dependency setters are symbolically '
               'executed from the real source; the shared invariant Inv (forest F1-F4, list objects distinct, ownership W1/W1r/WR, links symmetric M1, acyclic M2 via the Lean-proved lemma G1, no link along the hierarchy X1) is '
               'proved on the normal AND the exceptional exit for an arbitrary heap satisfying Inv - i.e. for every history - together with `rejected => heap unchanged` (C15), `rejected only for a stated reason / accepted only without one`, '
               'and the exact effect with frame (C16). Task.children.setter (the assignment task.children = [...] / wbs.roots = [...]) is proved too (a task named several times ends up listed once, at the place of its last occurrence): checks, release loop (closed form of the ancestry after several cuts), '
               'clear, attach loop - the parent setter is proved for an arbitrary set of tasks exempt from W1r, because between the two loops the kept children are detached but still labelled; the loop invariant says every such task sits below a named task still to be attached. '
               'Result: Inv, the exact effect, `rejected by a check => unchanged`, `rejected only for a stated reason`; and in a second unit over the same function (`[no-late-refusal]`): once the checks have passed the attach loop cannot be refused '
               '(owner, id, cycle and link test of the parent setter each shown to pass at every iteration: the ancestors of the task do not change, owners only become None or the task\'s owner, subtrees of the tasks still to attach do not grow, '
               'the receiving tree only gains incoming tasks, and ids are unique across the receiving tree and the incoming tasks - from U1 and the proved meaning of the id test) - so a rejected assignment changes nothing (C15). Its callers WBS.roots.setter, _ChildrenList.remove, the recursive WBS.__remove (returns True exactly for a task below the start task) '
               'and WBS.remove, and the operators t // others, t << others, t >> others (right operand a list of tasks, a single task or None - two units each; // also when `others` repeats a task or names a current child) are proved against these contracts. The same operators on a task LIST (_ImmutableTaskList.__lshift__ / __rshift__, a loop over the members) are proved for the accepted call: every member ends with its old links plus the named tasks, no other task changes, the link invariant holds - for a refused call nothing is claimed (the loop stops half-way: known finding A-38). The list facades are proved against those contracts (callers see only the callee contract): _ChildrenList.append / insert / move / sort / reorder and _PredecessorsList / _SuccessorsList append / remove, '
               'as are the ownership walks Task._attach / _detach, the list-object setter __set_children and the closure helpers the mutators call (recursive generators executed with a ghost output list; '
               'all_children is proved to return exactly the depth-first listing dfs(t) = concat over the children c in list order of [c] + dfs(c), every strict descendant once - which is WBS.tasks (C05); '
               'termination by measures whose existence in finite acyclic graphs is Lean lemma K1). Task.__init__ (all graph arguments: parent, children, predecessors, successors - two ghost relations, one per side, each the transpose of the other; Lean lemma transpose_acyclic) is proved to establish Inv for the new object - the unallocated part of the heap is modelled as blank objects nobody refers to - and to hand parent / children to the setters. WBS.__init__ (without initial tasks) is proved to create a hidden root with the reserved id that the new WBS owns (the constructor call on the reserved id is used by assumed contract). Level `other`: what is listed below is covered by the bounded native '
               'stand-in (random histories over task objects sharing ids, two WBSs, stale list facades, constructors). ')
PROPS.update({
    'C01': P('other', _GRAPH_EXPL, _GRAPH_B, _GRAPH_TRUST, design_ref='8/C01'),
    'C05': P('other', _GRAPH_EXPL + 'C05: WBS.tasks is proved to be the depth-first listing of the tasks below the hidden root, each member once (WBS.tasks -> Task.all_children -> the recursive generator, each unit against the callee contract); '
             'WBS.__getitem__ returns a member with the id / raises exactly when there is none. Uniqueness itself (U1: two different tasks of one tree never share an id) is proved to be preserved by Task.parent.setter - the operation every attach / move / adopt goes through - in a unit of its own (`Task.parent.setter[ids]`, '
             'root-of-tree function with the Lean lemmas R1-R3, lemma chain) and carried through _ChildrenList.append / insert; the id test _has_id_intersection is proved to answer True exactly if, among the tasks below the named tasks that are not yet in the receiving tree, two share an id or one has the id of a task of that tree '
             '(with _find_root and _collect_subtree; the comparison of two set sizes is read as "the ids are not pairwise different" - pigeonhole, an assumed fact about finite sets); the mutator units use the test through an opaque predicate whose revealed meaning is this sentence; '
             'the children setter preserves U1 as well (unit `[no-late-refusal]`: tasks of one tree afterwards were in one tree before, or are both in the receiving tree or incoming - whose ids the id test has compared), '
             'and so do its callers (roots setter, _ChildrenList.remove, WBS.remove / remove_all, //: `ids unique before => unique after`, and `a refusal out of the attach loop needs ids that were not unique`); for the constructors U1 is decided by the bounded stand-in.',
             _GRAPH_B, _GRAPH_TRUST + ['WBS.__getitem__ is proved to return a member with the id / raise exactly when there is none, given the listing of all_children'], design_ref='8/C05'),
    'C11': P('other', _GRAPH_EXPL + 'C11: W1 (owner constant along the hierarchy), W1r (a task reports WBS X only if it is reachable from X\'s hidden root) and WR proved for re-parenting incl. subtree adoption; release paths (remove, assignments) bounded.',
             _GRAPH_B, _GRAPH_TRUST, design_ref='8/C11'),
    'C15': P('other', _GRAPH_EXPL, _GRAPH_B, _GRAPH_TRUST, ['constructor atomicity is a known finding (A-12)'], design_ref='8/C15'),
    'C16': P('other', _GRAPH_EXPL, _GRAPH_B, _GRAPH_TRUST, design_ref='8/C16'),
})
PROPS.update({
    'C18': P('other', 'contract-based deductive verification of the query code: the nested function _ImmutableTaskList.__call__.search is symbolically executed from the real source (loop over the keyword items, eleven '
             'suffix tests, slices, dynamically typed comparisons) and proved to return True exactly if every filter holds under the longest-matching-suffix reading of the property - for all keyword strings (SMT string '
             'theory, opaque/reveal for the quantified invariant); __get_task_attribute is proved to return the value of every public attribute incl. the property-backed id, estimate, spent, parent_id and None when lacking. '
             'bulk __setattr__ is proved to set the attribute on exactly the listed tasks (plain attribute names). _ImmutableTaskList.__call__ itself is proved to return, on every branch, exactly the listed tasks that satisfy the '
             'callable key / every keyword filter, without changing the list, and to refuse only a key that is neither None nor callable. remove_all is proved in both forms: _TaskList.remove_all on a children list (children afterwards = the children that were not selected, order kept; selected tasks detached; '
             'the selection is returned) and WBS.remove_all (members afterwards = the old members that are neither selected nor below a selected task - a recursively defined predicate over the selection - through the proved WBS.__remove). '
             'Level `other`: remove_all on a dependency list, and the claim that a removal is never refused (C15 of the children setter\'s attach loop), are covered by the bounded stand-in only.',
             ['_TaskList.remove_all on a dependency list'],
             ['library contracts (L): rich comparisons, `in` and re.search on dynamically typed values are uninterpreted predicates', 'SMT string theory of z3/cvc5',
              'semantics of a list comprehension with a condition (the elements that satisfy it, in order) is the assumed contract of the built-in (T1)'], design_ref='8/C18'),
    'C20': P('other', 'contract-based deductive verification of utils.py with an abstract text theory (len, visible length, concatenation, spaces): colored_text has visible width max(len(text), width); '
             '_TextTableRow.repr has visible width sum(width_i + 2) plus the borders, is one line and not empty, for every number of columns (loop invariant) given that every cell fits its column; '
             'TextTable.text_repr computes column widths that every cell fits (two nested loops over a dict whose keys are shown to stay 0..n-1 in insertion order) and returns one line per row, every line of the same visible width. '
             'The usage table (contracts/usage.py): ResourceUsageReport.__repr__ is proved to hand text_repr a table of one header line plus one line per day d = first, first + 1 day, ... up to the last reservation (n lines with first + (n-1) days <= last < first + n days), '
             'every line with the date cell plus one cell per resource; the builders TextTable.new_row / new_cell and _TextTableRow.add_cell are proved on the same model (rows and cells as heap objects). '
             'The sheet builder (contracts/sheetrows.py): _Repr.__print_task_subtree (recursion by contract, three loops) and _Repr.repr are proved to hand text_repr one header line plus one line per task shown - 1 + len(dfs(task)) lines for each given task with children on '
             '(dfs = the depth-first listing proved for Task.all_children), one line each with children off - every line with exactly one cell per field. '
             'Level `other`: what the cells say (indentation of the name, link cells with the external mark, __get_field_value), the order of the lines, and the cell texts of the usage table are covered by the bounded stand-in only.',
             ['_Repr.__get_field_value / __get_linked_task_id (cell texts), order and indentation of the lines', 'cell texts of ResourceUsageReport.__repr__ (date format, one decimal, colours)'],
             ['abstract text theory T3: additive len/vis equations for str concatenation and repetition', 'pre-condition: bg_color is None at every call (true of all call sites in the repository)',
              'sheet builder: _Repr.__get_field_value is used as a total function returning a text (assumed: no exception out of str() / strftime of an attribute value); the theme has the documented key level_colors; field names are texts',
              'usage table: every ledger row names a resource (reserve() is only ever called with one); iterating an unmodified set twice yields the same order (CPython guarantee); the table model of contracts/usage.py (rows / cells as list values in fields) and the model of contracts/text.py describe the same objects'], design_ref='8/C20'),
    'C13': P('other', 'contract-based deductive verification of the field-level inverse pairs: the five cell parsers of csv_io.py are proved against their specification, and for every default column the cell '
             'expression of write_csv (taken from the real AST) rendered by the csv writer and read back by the parser specification is proved equivalent to the field (None ~ empty text); the TaskRaw fields built by '
             'tasks_to_raws are proved to be the task values, parent_id = id of the reported parent for all ids (0 and negative included). raws_to_wbs is proved to rebuild the HIERARCHY from the rows: one task per row with the row\'s id, every task below the task of its parent row (a root task of the new WBS '
             'if the row names no parent, or a parent id that no row has), root tasks and siblings in row order, and (unit raws_to_wbs[dependencies]) the DEPENDENCIES: the predecessors of every row\'s task are exactly the tasks of the ids the row lists, the link invariant (symmetric, acyclic, duplicate free) '
             'holds for the result - six loops over the proved contracts of Task.__init__, the parent setter, WBS.__init__, the lookup by id and _PredecessorsList.append / the predecessors setter '
             '(domain: rows with pairwise different ids; a RuntimeError out of a mutator - unknown id, cyclic parents or dependencies - is allowed). '
             'Level `other`: predecessor_ids join/split, custom columns, the reader / writer loops, the fix-point and BOM clauses are covered by the bounded stand-in only.',
             ['__parse_predecessors', '__parse_header', 'read_csv / write_csv loops', 'custom attribute columns'],
             ['library contracts (L): csv.reader(csv.writer(rows)) = rows; csv renders None as empty, others by str(); float(str(x)) = x; int(str(i)) = i; strptime(strftime(d)) = d for day-precision dates 1969-2068 (enumerated completely in the thorough tier)'],
             ['min_start is not read back (known finding A-27)'], design_ref='8/C13'),
    'C12': P('other', 'contract-based deductive verification of the two memoised recursions of CriticalPathCalculator: __forward / __backward are proved (recursion by contract, termination by rank, loop invariants) to '
             'establish the Bellman equations ES(n) = max(0, max(ES(l.start) + l.units)) and LF(n) = min(LF(l.end) - l.units) (ES(n) at sinks) for every node they set, never to change a value once set, and to be free of None arithmetic. '
             'The three constructors of the network are proved as well (contracts/network.py, nodes and arcs as heap objects with a ghost allocation flag): __new_node, __connect, and __add_work(id, units, predecessors) - exactly two new nodes, '
             'one work arc with the given units registered under the id, one zero-length arc from the end of the arc of every listed predecessor id in list order, nothing that existed changes, no KeyError when the listed ids are registered. '
             'Level `other`: which tasks and ids reach __add_work (__insert_task: summary / inherited dependencies), the float test of calc and the mathematical lemma `Bellman solution = longest path, zero float = on a longest chain` are '
             'outside the contracts; the bounded stand-in compares critical_path() with an exact rational longest-path computation.',
             ['CriticalPathCalculator.__init__ / __insert_task (which leaves and which dependency ids enter the network)', 'CriticalPathCalculator.calc (selection, tolerance)', '_find_clusters'],
             ['mathematical lemma (not machine-checked here): on a finite DAG the Bellman solution is the longest-path length',
              'network constructors: the link lists of a node, the node list and the id -> arc dictionary of the calculator are modelled as list / map VALUES in fields (never aliased: only these functions touch them); a ghost allocation flag stands for object freshness; '
              'the Bellman units (contracts/critpath.py) read the same lists through an immutable view - that both models describe the same objects is assumed'], design_ref='8/C12'),
    'C10': P('other', 'contract-based deductive verification of Task.clone: symbolically executed from the real source with instance attributes as a per-object map; proved: the copy is a new object, same id / estimate / spent, '
             'exactly the public instance attributes of the source with equal values (loop invariant over the keys of __dict__), no relations, source and all other tasks unchanged. '
             'WBS.__clone (new-WBS assembly and WBS attribute copy, WBS attributes as a per-object map): the result is a new WBS, the roots setter of the copy is handed exactly the clones (looked up by id in the dict of __clone_tasks, no KeyError) of the given roots in their order, '
             'exactly the public attributes of the source WBS are carried over with their values (loop invariant) and no WBS that existed before changes an attribute; WBS.clone hands exactly its own root list to __clone, WBS.subtree (operand a list of tasks) exactly the named tasks in their order (_to_list). '
             'Level `other`: WBS.__clone_tasks (re-wiring hierarchy, sibling order and links, owner; which links a selection keeps) is covered by the bounded stand-in only; the contract of __clone_tasks used by __clone is assumed.',
             ['WBS.__clone_tasks', 'WBS.subtree with a single task as operand'], ['contract of the Task constructor with id/estimate/spent keywords (fresh object, default public attributes, no relations)',
              'assumed contract of WBS.__clone_tasks at its call in WBS.__clone: returns a dict holding an entry under the id of every given root and touches no WBS attribute',
              'assumed contract of WBS() at its call in WBS.__clone: a fresh WBS whose only instance attribute is the private _WBS__root (the constructor unit in contracts/children.py proves the graph view, not the attribute map)',
              'roots setter at its call in WBS.__clone: only the list it is handed is recorded (its graph effect is proved by its own unit, contracts/children.py); it may refuse',
              '_to_list at its call in WBS.subtree: a list of tasks without None comes back with the same tasks in the same order (the clause proved for _to_list in contracts/small.py, restated)', '`roots` is a re-iterable sequence of tasks (both callers pass lists); WBS.roots returns a list of tasks without None (graph invariant)'],
             ['pre-condition: clone() is called without extra keyword arguments (as WBS.__clone_tasks does)', 'outside task sharing an id with a member: known finding A-22'], design_ref='8/C10'),
    'C19': P('other', 'reduced scope (DESIGN.md section 10). Contract-based deductive verification of the value-level clauses that live in pjplan code: MermaidGantt.__mermaid_task_state returns the milestone flag exactly for '
             'milestones and the done/active token from the dates; the progress computation of DhtmlxGantt.__data (statements taken from the real AST) yields a value within 0..1 for every scheduled task and never raises. '
             'MermaidNetwork.__src is proved at the level of line counts (abstract text theory: number of line breaks): after the heading line the source has, for every member task, one line per predecessor - or one Start line if it has none - and one style line per '
             'task that carries a bar style (three loops; domain: single-line task names, the property\'s quantifier). MermaidGantt.__mermaid_task is proved to return exactly one line, and MermaidGantt.__src to add, after the heading, exactly one task line per member task '
             'plus one section line per section when the tasks carry more than one section - the section dictionary (setdefault / append, then items()) as a key list and a map, shown to hold distinct non-empty sections whose lists contain every task exactly once, each under its own section. DhtmlxGantt.__data is proved at the level of counts: the "data" list handed to json.dumps has exactly one entry per task, root tree by root tree, and the "links" list carries the ids 1, 2, 3, ... in order (uniquely numbered); '
             'the entry dictionaries themselves are opaque there (the expressions inside the dictionary literals are not evaluated, their safety is not claimed). '
             'Everything else about the emitted documents - what the lines say, one line / entry per task in the Gantt documents, link numbering, JSON well-formedness, escaping - is decided by the bounded stand-in at the lexical level; what Mermaid, a browser or DHTMLX make of the '
             'text cannot be expressed by a contract on pjplan functions.',
             ['MermaidGantt.__src / __mermaid_task (content and order of the lines) / __styles', 'MermaidNetwork.__src (content of the lines)', 'DhtmlxGantt.__data (content of the entries, number of links) / __task_classes / __columns / to_html', '_repr_html_'],
             ['library contracts (L): json.dumps, html.escape, string.Template, strftime',
              'MermaidNetwork.__src line count: an f-string has the line breaks of its constant parts plus those of the embedded texts, str.replace of pieces without line breaks keeps their number, numbers render without one; assumed: the rendered style dictionary (__dict_to_style) has no line break; the three frame facts of the section-dictionary total (render.TOTAL_AX, inductions over the number of keys) are assumed and checked on all small instances in selftest/validate_axioms.py'],
             ['task names containing an arrow add an edge to the network line: known finding A-29'], design_ref='8/C19, 10'),
})
for _p in ['C01', 'C02', 'C03', 'C04', 'C05', 'C06', 'C07', 'C08', 'C09', 'C10', 'C11', 'C12', 'C13', 'C14', 'C15', 'C16', 'C18', 'C19', 'C20']:
    PROPS.setdefault(_p, P('other', 'see MANIFEST.json', design_ref='8/' + _p))
