import Mathlib.Logic.Relation
import Mathlib.Logic.Function.Basic
import Mathlib.Data.Set.Card
import Mathlib.Order.WellFounded
import Mathlib.Order.Preorder.Finite

/-! Graph lemmas behind the z3 axioms of pyvc (DESIGN.md §3.6).  No `sorry`. -/

open Relation

namespace PjGraph


variable {T : Type}

/-! ## General relations: replacing the in-edges of one node (lemma G1) -/

def Acyclic (R : T → T → Prop) : Prop := ∀ x, ¬ TransGen R x x

def upd (R : T → T → Prop) (s : T) (V : T → Prop) : T → T → Prop :=
  fun a x => (x = s ∧ V a) ∨ (x ≠ s ∧ R a x)

def InSub (R : T → T → Prop) (s x : T) : Prop := x = s ∨ TransGen R s x

theorem insub_step {R : T → T → Prop} {s b c : T} (hb : InSub R s b) (h : R b c) : InSub R s c := by
  rcases hb with rfl | hb
  · exact Or.inr (TransGen.single h)
  · exact Or.inr (TransGen.tail hb h)

theorem upd_path (R : T → T → Prop) (s : T) (V : T → Prop) :
    ∀ a x, TransGen (upd R s V) a x →
      TransGen R a x ∨ (∃ v, V v ∧ ReflTransGen (upd R s V) a v ∧ InSub R s x) := by
  intro a x h
  induction h with
  | single h =>
    rcases h with ⟨rfl, hv⟩ | ⟨_, hR⟩
    · exact Or.inr ⟨a, hv, ReflTransGen.refl, Or.inl rfl⟩
    · exact Or.inl (TransGen.single hR)
  | tail h1 h2 ih =>
    rename_i b c
    rcases h2 with ⟨rfl, hv⟩ | ⟨_, hR⟩
    · exact Or.inr ⟨b, hv, h1.to_reflTransGen, Or.inl rfl⟩
    · rcases ih with ih | ⟨v, hv, hav, hsb⟩
      · exact Or.inl (TransGen.tail ih hR)
      · exact Or.inr ⟨v, hv, hav, insub_step hsb hR⟩

theorem insub_closed (R : T → T → Prop) (s : T) (V : T → Prop) :
    ∀ a b, InSub R s a → ReflTransGen (upd R s V) a b → InSub R s b := by
  intro a b ha h
  induction h with
  | refl => exact ha
  | tail _ h2 ih =>
    rcases h2 with ⟨rfl, _⟩ | ⟨_, hR⟩
    · exact Or.inl rfl
    · exact insub_step ih hR

/-- G1: adding edges `v → s` for `v ∈ V` (and dropping the old in-edges of `s`) keeps the relation acyclic
    provided no `v` is `s` or reachable from `s`. -/
theorem G1 (R : T → T → Prop) (s : T) (V : T → Prop)
    (hac : Acyclic R) (hV : ∀ v, V v → ¬ InSub R s v) : Acyclic (upd R s V) := by
  intro x hx
  rcases upd_path R s V x x hx with h | ⟨v, hv, hxv, hsx⟩
  · exact hac x h
  · exact hV v hv (insub_closed R s V x v hsx hxv)

/-- G2: removing edges keeps acyclicity. -/
theorem G2 (R R' : T → T → Prop) (hsub : ∀ a x, R' a x → R a x) (hac : Acyclic R) : Acyclic R' := by
  intro x hx
  exact hac x (TransGen.mono hsub x x hx)

/-- G3: in an acyclic relation a direct edge excludes the reverse path (corollary used as a z3 axiom of DEP_AX). -/
theorem G3 (R : T → T → Prop) (hac : Acyclic R) (a x : T) (h : R a x) : ¬ TransGen R x a := by
  intro hx
  exact hac a (TransGen.head h hx)

/-- G4: every path has a last step (skolemised as `lastp` in DEP_AX). -/
theorem G4 (R : T → T → Prop) (a x : T) (h : TransGen R a x) : ∃ p, R p x ∧ (a = p ∨ TransGen R a p) := by
  rcases TransGen.tail'_iff.mp h with ⟨p, hap, hpx⟩
  refine ⟨p, hpx, ?_⟩
  rcases Relation.reflTransGen_iff_eq_or_transGen.mp hap with h1 | h1
  · exact Or.inl h1.symm
  · exact Or.inr h1

/-- transpose_acyclic: a relation is acyclic iff its transpose is (graph_theory.TRANSP_AX). -/
theorem transpose_acyclic (R R' : T → T → Prop) (h : ∀ a x, R' a x ↔ R x a) : Acyclic R ↔ Acyclic R' := by
  have hR' : R' = Function.swap R := by
    funext a x; exact propext (h a x)
  subst hR'
  constructor
  · intro hac x hx
    exact hac x (transGen_swap.mp hx)
  · intro hac x hx
    exact hac x (transGen_swap.mpr hx)

/-! ## Forests given by a parent map (lemmas D1–D5) -/

def E (par : T → Option T) (a x : T) : Prop := par x = some a
def Desc (par : T → Option T) : T → T → Prop := TransGen (E par)
def Acyc (par : T → Option T) : Prop := ∀ x, ¬ Desc par x x
def Sub (par : T → Option T) (s x : T) : Prop := x = s ∨ Desc par s x

theorem D1 (par : T → Option T) (a x : T) (h : par x = some a) : Desc par a x := TransGen.single h
theorem D2 (par : T → Option T) (a b c : T) : Desc par a b → Desc par b c → Desc par a c := TransGen.trans

theorem D3 (par : T → Option T) (a x : T) (h : Desc par a x) :
    ∃ q, par x = some q ∧ (q = a ∨ Desc par a q) := by
  cases h with
  | single h => exact ⟨a, h, Or.inl rfl⟩
  | tail h1 h2 => exact ⟨_, h2, Or.inr h1⟩

theorem up (par : T → Option T) {s a x : T} (h : Desc par s x) (e : E par a x) : Sub par s a := by
  obtain ⟨q, hq, hq'⟩ := D3 par s x h
  have : q = a := by
    have := hq.symm.trans e
    exact Option.some.inj this
  subst this
  rcases hq' with rfl | h'
  · exact Or.inl rfl
  · exact Or.inr h'

theorem sub_step (par : T → Option T) {s b c : T} (hb : Sub par s b) (h : E par b c) : Sub par s c := by
  rcases hb with rfl | hb
  · exact Or.inr (TransGen.single h)
  · exact Or.inr (TransGen.tail hb h)

variable [DecidableEq T]

theorem E_upd (par : T → Option T) (s p a x : T) :
    E (Function.update par s (some p)) a x ↔ (x = s ∧ a = p) ∨ (x ≠ s ∧ E par a x) := by
  unfold E
  by_cases h : x = s
  · subst h
    simp [Function.update_self, eq_comm]
  · simp [h]

/-- D4 (soundness direction). -/
theorem D4s (par : T → Option T) (s p : T) (hp : ¬ Sub par s p) :
    ∀ a x, Desc (Function.update par s (some p)) a x →
      (Sub par s x → (Desc par a x ∧ Sub par s a) ∨ a = p ∨ Desc par a p)
      ∧ (¬ Sub par s x → Desc par a x) := by
  intro a x h
  induction h with
  | single h =>
    rename_i c
    rcases (E_upd par s p a c).1 h with ⟨rfl, rfl⟩ | ⟨hne, hR⟩
    · exact ⟨fun _ => Or.inr (Or.inl rfl), fun hn => absurd (Or.inl rfl) hn⟩
    · refine ⟨fun hs => ?_, fun _ => TransGen.single hR⟩
      rcases hs with rfl | hs
      · exact absurd rfl hne
      · exact Or.inl ⟨TransGen.single hR, up par hs hR⟩
  | tail h1 h2 ih =>
    rename_i b c
    rcases (E_upd par s p b c).1 h2 with ⟨rfl, rfl⟩ | ⟨hne, hR⟩
    · exact ⟨fun _ => Or.inr (Or.inr (ih.2 hp)), fun hn => absurd (Or.inl rfl) hn⟩
    · refine ⟨fun hs => ?_, fun hn => ?_⟩
      · rcases hs with rfl | hs
        · exact absurd rfl hne
        · have hb : Sub par s b := up par hs hR
          rcases ih.1 hb with ⟨hab, hsa⟩ | rfl | hap
          · exact Or.inl ⟨TransGen.tail hab hR, hsa⟩
          · exact Or.inr (Or.inl rfl)
          · exact Or.inr (Or.inr hap)
      · have hnb : ¬ Sub par s b := fun hb => hn (sub_step par hb hR)
        exact TransGen.tail (ih.2 hnb) hR

/-- paths that end outside the subtree of `s` survive the update -/
theorem c1 (par : T → Option T) (s p : T) :
    ∀ a x, Desc par a x → ¬ Sub par s x → Desc (Function.update par s (some p)) a x := by
  intro a x h
  induction h with
  | single h =>
    rename_i c
    intro hn
    have hne : c ≠ s := fun e => hn (Or.inl e)
    exact TransGen.single ((E_upd par s p a c).2 (Or.inr ⟨hne, h⟩))
  | tail h1 h2 ih =>
    rename_i b c
    intro hn
    have hne : c ≠ s := fun e => hn (Or.inl e)
    have hnb : ¬ Sub par s b := fun hb => hn (sub_step par hb h2)
    exact TransGen.tail (ih hnb) ((E_upd par s p b c).2 (Or.inr ⟨hne, h2⟩))

/-- paths that start inside the subtree of `s` survive the update (needs acyclicity) -/
theorem c2 (par : T → Option T) (s p : T) (hac : Acyc par) :
    ∀ a x, Desc par a x → Sub par s a → Desc (Function.update par s (some p)) a x := by
  intro a x h hsa
  have key : ∀ c, Desc par a c → c ≠ s := by
    intro c hac' e
    subst e
    rcases hsa with rfl | hsa
    · exact hac _ hac'
    · exact hac _ (TransGen.trans hsa hac')
  induction h with
  | single h =>
    rename_i c
    exact TransGen.single ((E_upd par s p a c).2 (Or.inr ⟨key c (TransGen.single h), h⟩))
  | tail h1 h2 ih =>
    rename_i b c
    exact TransGen.tail ih ((E_upd par s p b c).2 (Or.inr ⟨key c (TransGen.tail h1 h2), h2⟩))

/-- D4 (completeness direction). -/
theorem D4c (par : T → Option T) (s p : T) (hac : Acyc par) (hp : ¬ Sub par s p) (a x : T) :
    ((Sub par s x ∧ ((Desc par a x ∧ Sub par s a) ∨ a = p ∨ Desc par a p))
      ∨ (¬ Sub par s x ∧ Desc par a x)) → Desc (Function.update par s (some p)) a x := by
  have hps : Desc (Function.update par s (some p)) p s :=
    TransGen.single ((E_upd par s p p s).2 (Or.inl ⟨rfl, rfl⟩))
  have c3 : Sub par s x → Desc (Function.update par s (some p)) p x := by
    intro hsx
    rcases hsx with rfl | hsx
    · exact hps
    · exact TransGen.trans hps (c2 par s p hac s x hsx (Or.inl rfl))
  rintro (⟨hsx, ⟨hax, hsa⟩ | rfl | hap⟩ | ⟨hnx, hax⟩)
  · exact c2 par s p hac a x hax hsa
  · exact c3 hsx
  · exact TransGen.trans (c1 par s p a p hap hp) (c3 hsx)
  · exact c1 par s p a x hax hnx

/-- D4 (acyclicity is preserved by re-parenting below a non-descendant). -/
theorem D4acyc (par : T → Option T) (s p : T) (hac : Acyc par) (hp : ¬ Sub par s p) :
    Acyc (Function.update par s (some p)) := by
  intro x hx
  have h := D4s par s p hp x x hx
  by_cases hsx : Sub par s x
  · rcases h.1 hsx with ⟨hxx, _⟩ | rfl | hxp
    · exact hac x hxx
    · exact hp hsx
    · apply hp
      rcases hsx with rfl | hsx
      · exact Or.inr hxp
      · exact Or.inr (TransGen.trans hsx hxp)
  · exact hac x (h.2 hsx)




theorem E_fun (par : T → Option T) {a b x : T} (h1 : E par a x) (h2 : E par b x) : a = b :=
  Option.some.inj (h1.symm.trans h2)

/-- CL1: a set closed under children contains every descendant of its members (closure.CLOSED_AX). -/
theorem CL1 (par : T → Option T) (S : T → Prop) (hcl : ∀ a x, par x = some a → S a → S x)
    (t x : T) (h : Desc par t x) (ht : S t) : S x := by
  induction h with
  | single h => exact hcl _ _ h ht
  | tail _ h2 ih => exact hcl _ _ h2 ih

/-- CL2: ... and every descendant of a node all of whose children are members. -/
theorem CL2 (par : T → Option T) (S : T → Prop) (hcl : ∀ a x, par x = some a → S a → S x)
    (r : T) (hr : ∀ x, par x = some r → S x) (x : T) (h : Desc par r x) : S x := by
  induction h with
  | single h => exact hr _ h
  | tail _ h2 ih => exact hcl _ _ h2 ih

/-- D6: downward unfolding — the first step of a path from `t` to `x` goes to a child of `t`. -/
theorem D6 (par : T → Option T) (t x : T) (h : Desc par t x) :
    ∃ c, par c = some t ∧ (c = x ∨ Desc par c x) := by
  obtain ⟨c, htc, hcx⟩ := TransGen.head'_iff.1 h
  refine ⟨c, htc, ?_⟩
  rcases reflTransGen_iff_eq_or_transGen.1 hcx with h | h
  · exact Or.inl h.symm
  · exact Or.inr h

/-- ancestors of a node form a chain (functional parent) -/
theorem chain (par : T → Option T) (a b x : T) (ha : Desc par a x) :
    Desc par b x → a = b ∨ Desc par a b ∨ Desc par b a := by
  induction ha with
  | single h =>
    intro hb
    obtain ⟨q, hq, hq'⟩ := D3 par b _ hb
    have : q = a := E_fun par hq h
    subst this
    rcases hq' with rfl | h'
    · exact Or.inl rfl
    · exact Or.inr (Or.inr h')
  | tail h1 h2 ih =>
    rename_i y z
    intro hb
    obtain ⟨q, hq, hq'⟩ := D3 par b _ hb
    have : q = y := E_fun par hq h2
    subst this
    rcases hq' with rfl | h'
    · exact Or.inr (Or.inl h1)
    · exact ih h'

/-- D6u: in an acyclic forest the child of `t` on the way to `x` is unique. -/
theorem D6u (par : T → Option T) (hac : Acyc par) (t x c c' : T)
    (hc : par c = some t) (hcx : c = x ∨ Desc par c x)
    (hc' : par c' = some t) (hcx' : c' = x ∨ Desc par c' x) : c = c' := by
  have htc : Desc par t c := TransGen.single hc
  have htc' : Desc par t c' := TransGen.single hc'
  -- a strict descent c ⟶ c' between two children of t is impossible
  have no : ∀ u v, par u = some t → par v = some t → Desc par u v → False := by
    intro u v hu hv huv
    obtain ⟨q, hq, hq'⟩ := D3 par u v huv
    have : q = t := E_fun par hq hv
    subst this
    rcases hq' with rfl | h'
    · exact hac _ (TransGen.single hu)
    · exact hac _ (TransGen.trans h' (TransGen.single hu))
  rcases hcx with rfl | hcx
  · rcases hcx' with rfl | hcx'
    · rfl
    · exact (no c' c hc' hc hcx').elim
  · rcases hcx' with rfl | hcx'
    · exact (no c c' hc hc' hcx).elim
    · rcases chain par c c' x hcx hcx' with h | h | h
      · exact h
      · exact (no c c' hc hc' h).elim
      · exact (no c' c hc' hc h).elim


theorem E_det (par : T → Option T) (s a x : T) :
    E (Function.update par s none) a x ↔ (x ≠ s ∧ E par a x) := by
  unfold E
  by_cases h : x = s
  · subst h; simp [Function.update_self]
  · simp [h]

/-- D5: detaching `s` (parent := none): closed form of `Desc`. -/
theorem D5 (par : T → Option T) (s : T) (hac : Acyc par) (a x : T) :
    Desc (Function.update par s none) a x ↔
      (Desc par a x ∧ (Sub par s x → Sub par s a)) := by
  constructor
  · intro h
    induction h with
    | single h =>
      rename_i c
      obtain ⟨hne, hR⟩ := (E_det par s a c).1 h
      refine ⟨TransGen.single hR, fun hs => ?_⟩
      rcases hs with rfl | hs
      · exact absurd rfl hne
      · obtain ⟨q, hq, hq'⟩ := D3 par s c hs
        have : q = a := E_fun par hq hR
        subst this
        rcases hq' with rfl | h'
        · exact Or.inl rfl
        · exact Or.inr h'
    | tail h1 h2 ih =>
      rename_i b c
      obtain ⟨hne, hR⟩ := (E_det par s b c).1 h2
      refine ⟨TransGen.tail ih.1 hR, fun hs => ?_⟩
      rcases hs with rfl | hs
      · exact absurd rfl hne
      · obtain ⟨q, hq, hq'⟩ := D3 par s c hs
        have : q = b := E_fun par hq hR
        subst this
        rcases hq' with rfl | h'
        · exact ih.2 (Or.inl rfl)
        · exact ih.2 (Or.inr h')
  · rintro ⟨h, hs⟩
    -- every edge b → c on the old path has c ≠ s
    have key : ∀ c, Desc par a c → (c = x ∨ Desc par c x) → c ≠ s := by
      intro c hac' hcx e
      subst e
      have hsx : Sub par c x := by
        rcases hcx with rfl | hcx
        · exact Or.inl rfl
        · exact Or.inr hcx
      rcases hs hsx with rfl | hsa
      · exact hac _ hac'
      · exact hac _ (TransGen.trans hsa hac')
    clear hs
    induction h with
    | single h =>
      rename_i c
      exact TransGen.single ((E_det par s a c).2 ⟨key c (TransGen.single h) (Or.inl rfl), h⟩)
    | tail h1 h2 ih =>
      rename_i b c
      have hbc : Desc par b c := TransGen.single h2
      refine TransGen.tail (ih ?_) ((E_det par s b c).2 ⟨key c (TransGen.tail h1 h2) (Or.inl rfl), h2⟩)
      intro c' hc' hcx
      apply key c' hc'
      rcases hcx with rfl | hcx
      · exact Or.inr hbc
      · exact Or.inr (TransGen.trans hcx hbc)

/-! ## K1: a ℕ-valued measure that decreases along edges of a finite acyclic relation -/

noncomputable def rank (R : T → T → Prop) (x : T) : ℕ := Set.ncard {y | TransGen R y x}

theorem K1 [Finite T] (R : T → T → Prop) (hac : ∀ x, ¬ TransGen R x x) {a x : T} (h : R a x) :
    rank R a < rank R x := by
  unfold rank
  apply Set.ncard_lt_ncard _ (Set.toFinite _)
  constructor
  · intro y hy
    exact TransGen.tail hy h
  · intro hsub
    have : a ∈ {y | TransGen R y a} := hsub (TransGen.single h : a ∈ {y | TransGen R y x})
    exact hac a this




theorem wfE [Finite T] (par : T → Option T) (hac : Acyc par) : WellFounded (E par) := by
  have : IsTrans T (Desc par) := ⟨fun _ _ _ => TransGen.trans⟩
  have : Std.Irrefl (Desc par) := ⟨hac⟩
  have h : WellFounded (Desc par) := Finite.wellFounded_of_trans_of_irrefl (Desc par)
  exact Subrelation.wf (fun {a b} (hab : E par a b) => (TransGen.single hab : Desc par a b)) h

/-- the root of `x`'s tree, by recursion along the (well-founded) parent relation -/
noncomputable def root (par : T → Option T) (hwf : WellFounded (E par)) : T → T :=
  hwf.fix (fun x rec => match h : par x with
    | none => x
    | some q => rec q h)

theorem R1none (par : T → Option T) (hwf : WellFounded (E par)) (x : T) (h : par x = none) :
    root par hwf x = x := by
  unfold root
  rw [WellFounded.fix_eq]
  split
  · rfl
  · rename_i q hq; rw [h] at hq; cases hq

theorem R1some (par : T → Option T) (hwf : WellFounded (E par)) (x q : T) (h : par x = some q) :
    root par hwf x = root par hwf q := by
  conv_lhs => unfold root
  rw [WellFounded.fix_eq]
  split
  · rename_i hq; rw [h] at hq; cases hq
  · rename_i q' hq
    have : q' = q := Option.some.inj (hq.symm.trans h)
    subst this
    rfl

/-- R2: descendants have the root of their ancestors -/
theorem R2 (par : T → Option T) (hwf : WellFounded (E par)) (a x : T) (h : Desc par a x) :
    root par hwf x = root par hwf a := by
  induction h with
  | single h => exact R1some par hwf _ _ h
  | tail _ h2 ih => rw [R1some par hwf _ _ h2, ih]

theorem root_sub (par : T → Option T) (hwf : WellFounded (E par)) (x : T) :
    Sub par (root par hwf x) x ∧ par (root par hwf x) = none := by
  induction x using hwf.induction with
  | _ x ih =>
    cases h : par x with
    | none =>
      rw [R1none par hwf x h]
      exact ⟨Or.inl rfl, h⟩
    | some q =>
      rw [R1some par hwf x q h]
      obtain ⟨hs, hn⟩ := ih q h
      refine ⟨?_, hn⟩
      rcases hs with hs | hs
      · right; rw [← hs]; exact TransGen.single h
      · right; exact TransGen.tail hs h

/-- uniqueness: any parent-less node above-or-equal `x` is the root of `x` -/
theorem root_unique (par : T → Option T) (hwf : WellFounded (E par)) (r x : T)
    (hs : Sub par r x) (hn : par r = none) : root par hwf x = r := by
  rcases hs with rfl | hs
  · exact R1none par hwf _ hn
  · rw [R2 par hwf r x hs, R1none par hwf r hn]


/-! ## R3: the root after re-parenting / detaching -/

theorem R3a [Finite T] (par : T → Option T) (s p : T) (hac : Acyc par) (hp : ¬ Sub par s p)
    (hwf : WellFounded (E par)) (hwf' : WellFounded (E (Function.update par s (some p)))) (x : T)
    (hsx : Sub par s x) : root (Function.update par s (some p)) hwf' x = root par hwf p := by
  obtain ⟨hr, hn⟩ := root_sub par hwf p
  have hne : root par hwf p ≠ s := fun e => hp (e ▸ hr)
  have hps : Desc (Function.update par s (some p)) p s :=
    TransGen.single ((E_upd par s p p s).2 (Or.inl ⟨rfl, rfl⟩))
  have hpx : Desc (Function.update par s (some p)) p x := by
    rcases hsx with rfl | hsx
    · exact hps
    · exact TransGen.trans hps (c2 par s p hac s x hsx (Or.inl rfl))
  apply root_unique
  · rcases hr with hr | hr
    · right; rw [← hr]; exact hpx
    · right; exact TransGen.trans (c1 par s p _ p hr hp) hpx
  · rw [Function.update_of_ne hne]; exact hn

theorem R3b [Finite T] (par : T → Option T) (s p : T)
    (hwf : WellFounded (E par)) (hwf' : WellFounded (E (Function.update par s (some p)))) (x : T)
    (hsx : ¬ Sub par s x) : root (Function.update par s (some p)) hwf' x = root par hwf x := by
  obtain ⟨hr, hn⟩ := root_sub par hwf x
  have hne : root par hwf x ≠ s := fun e => hsx (e ▸ hr)
  apply root_unique
  · rcases hr with hr | hr
    · exact Or.inl hr
    · exact Or.inr (c1 par s p _ x hr hsx)
  · rw [Function.update_of_ne hne]; exact hn

theorem R3det [Finite T] (par : T → Option T) (s : T) (hac : Acyc par)
    (hwf : WellFounded (E par)) (hwf' : WellFounded (E (Function.update par s none))) (x : T) :
    (Sub par s x → root (Function.update par s none) hwf' x = s) ∧
    (¬ Sub par s x → root (Function.update par s none) hwf' x = root par hwf x) := by
  constructor
  · intro hsx
    apply root_unique
    · rcases hsx with rfl | hsx
      · exact Or.inl rfl
      · exact Or.inr ((D5 par s hac s x).2 ⟨hsx, fun _ => Or.inl rfl⟩)
    · exact Function.update_self ..
  · intro hsx
    obtain ⟨hr, hn⟩ := root_sub par hwf x
    have hne : root par hwf x ≠ s := fun e => hsx (e ▸ hr)
    apply root_unique
    · rcases hr with hr | hr
      · exact Or.inl hr
      · exact Or.inr ((D5 par s hac _ x).2 ⟨hr, fun h => absurd h hsx⟩)
    · rw [Function.update_of_ne hne]; exact hn

end PjGraph
