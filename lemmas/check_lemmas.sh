#!/bin/sh
# Re-checks the Lean lemma file behind the z3 graph axioms (contracts/graph_theory.py).  Exit 0 = accepted by Lean 4 + Mathlib, no sorry.
cd "$(dirname "$0")"
if grep -v "^/-!" Graph.lean | grep -n "sorry"; then echo "sorry found"; exit 1; fi
cd /opt/veriftools/mathlib4 2>/dev/null || true
lean "$OLDPWD/Graph.lean" && echo "Graph.lean: accepted"
